/-
  Vise.Render — model of render/menu.go, render/size.go, render/page.go.

  * Go maps (`cacheMap`, `values`) are association lists with unique keys; the only iteration
    whose order could matter (`split`, `GetAt`) is order-insensitive because at most one symbol
    of a page is a sink (enforced by `Page.Map`).
  * `text/template` is modelled for the documented form only: literal text and `{{.name}}`
    placeholders with `missingkey=error`; anything else between `{{` and `}}` is a parse error.
  * `uint32` arithmetic in `joinSink` and `Menu.Sizes` wraps explicitly; `uint16` page counts too.
  * the resource is a record of lookup functions (see `RenderEnv`); language is a parameter.
-/
import Vise.Cache

namespace Vise

/-- resource lookups used by the renderer, already specialised to the request's language. -/
structure RenderEnv where
  /-- `Resource.GetTemplate(sym)`; `none` = error -/
  tpl : Bytes → Option Bytes
  /-- `Resource.GetMenu(sym)`; `none` = error -/
  label : Bytes → Option Bytes

structure BrowseCfg where
  nextAvailable : Bool := false
  nextSelector : Bytes := []
  nextTitle : Bytes := []
  prevAvailable : Bool := false
  prevSelector : Bytes := []
  prevTitle : Bytes := []
deriving Repr, DecidableEq

structure Menu where
  items : List (Bytes × Bytes) := []      -- (selector, title)
  browse : BrowseCfg := {}
  pageCount : Nat := 0                    -- uint16
  canNext : Bool := false
  canPrev : Bool := false
  sink : Bool := false
  keep : Bool := true
  sep : Bytes := [0x3a]                   -- ":"
  /-- `m.rs != nil` (the menu built inside `Menu.Sizes` has no resource) -/
  hasRs : Bool := false
deriving Repr, DecidableEq

namespace Menu

def new (sep : Bytes := [0x3a]) : Menu := { sep := sep }

/-- `reset()` (lower case): re-arm the browse availability flags -/
def rearm (m : Menu) : Menu :=
  { m with canNext := if m.browse.nextAvailable then true else m.canNext,
           canPrev := if m.browse.prevAvailable then true else m.canPrev }

/-- `Reset()` -/
def reset (m : Menu) : Menu := ({ m with items := [], sink := false }).rearm

def put (m : Menu) (sel title : Bytes) : Menu := { m with items := m.items ++ [(sel, title)] }

def withPages (m : Menu) : Menu := if m.pageCount = 0 then { m with pageCount := 1 } else m

/-- `applyPage(idx)`; `"browse"` is `*BrowseError`. -/
def applyPage (m : Menu) (idx : Nat) : Res Menu :=
  if m.pageCount = 0 then
    if idx > 0 then .err "menu-not-paged" else .ok m
  else if idx ≥ m.pageCount then .err "browse"
  else
    let m := m.rearm
    let m := if idx = m.pageCount - 1 then { m with canNext := false } else m
    let m := if idx = 0 then { m with canPrev := false } else m
    let m := if m.canNext then m.put m.browse.nextSelector m.browse.nextTitle else m
    let m := if m.canPrev then m.put m.browse.prevSelector m.browse.prevTitle else m
    .ok m

/-- `titleFor` -/
def titleFor (env : RenderEnv) (m : Menu) (title : Bytes) : Res Bytes :=
  if !m.hasRs then .ok title
  else match env.label title with
    | some r => .ok r
    | none => .err "menu-label"

/-- the loop of `Render` over `shiftMenu` -/
def renderItems (env : RenderEnv) (m : Menu) : List (Bytes × Bytes) → Bytes → Res Bytes
  | [], r => .ok r
  | (choice, title) :: rest, r => do
    let r := if r.length > 0 then r ++ [0x0a] else r
    let t ← titleFor env m title
    renderItems env m rest (r ++ choice ++ m.sep ++ t)

/-- `Render(idx)`: returns the text and the menu as Go leaves it. -/
def render (env : RenderEnv) (m : Menu) (idx : Nat) : Res (Bytes × Menu) := do
  let copy := m.items
  let m ← m.applyPage idx
  let r ← renderItems env m m.items []
  -- all items were shifted out; restored when `keep`
  pure (r, { m with items := if m.keep then copy else [] })

/-- `Sizes()`: sizes of the browse entries, measured on a resource-less menu with the default
separator. `uint32` subtraction. -/
def sizes (env : RenderEnv) (m : Menu) : Res (Nat × Nat × Nat × Nat) := do
  let tmp : Menu := { (Menu.new) with browse := m.browse }
  let (v0, tmp) ← tmp.render env 0
  let s0 := v0.length % U32
  let tmp := { tmp with pageCount := 2 }
  let (v1, tmp) ← tmp.render env 0
  let s1 := u32sub (v1.length % U32) s0
  let (v2, _) ← tmp.render env 1
  let s2 := u32sub (v2.length % U32) s0
  pure (s0, s1, s2, u32add s1 s2)

end Menu

structure Sizer where
  outputSize : Nat
  crsrs : List Nat := []
  sink : Bytes := []
deriving Repr, DecidableEq

namespace Sizer

/-- `Check(s)`: (remaining, ok) -/
def check (sz : Sizer) (s : Bytes) : Nat × Bool :=
  let l := s.length % U32
  if sz.outputSize > 0 then
    if l > sz.outputSize then (0, false) else (sz.outputSize - l, true)
  else (l, true)

/-- `Set(key, size)` (only the sink assignment is observable) -/
def set (sz : Sizer) (key : Bytes) (size : Nat) : Sizer :=
  if size = 0 then { sz with sink := key } else sz

def addCursor (sz : Sizer) (c : Nat) : Sizer := { sz with crsrs := sz.crsrs ++ [c] }

/-- `GetAt(values, idx)` -/
def getAt (sz : Sizer) (values : List (Bytes × Bytes)) (idx : Nat) : Res (List (Bytes × Bytes)) :=
  if sz.sink.isEmpty then .ok values
  else
    values.foldlM (init := []) fun acc (k, v) =>
      if sz.sink = k then
        if idx ≥ sz.crsrs.length % 65536 then .err "no-more-values"
        else match sz.crsrs[idx]? with
          | none => .panic "GetAt:crsrs[idx]"
          | some c =>
            if c > v.length then .err "no-more-values"      -- bounds check added by the fix: commit
            else
              let v := v.drop c
              let v := match indexOf 0x0a v with
                | some nl => if nl > 0 then v.take nl else v
                | none => v
              .ok (acc ++ [(k, replaceByte 0x00 0x0a v)])
      else .ok (acc ++ [(k, v)])

/-- `Reset()`: cursors, sink symbol and member sizes are all forgotten (the sink used to survive
until the `fix:` commit c2a9262). -/
def reset (sz : Sizer) : Sizer := { sz with crsrs := [], sink := [] }

end Sizer

/-! ### text/template, restricted to literals and `{{.name}}` -/

inductive TplPart where
  | lit (b : Bytes)
  | field (name : Bytes)
deriving Repr, DecidableEq

def isIdentStart (c : UInt8) : Bool :=
  (0x61 ≤ c ∧ c ≤ 0x7a) || (0x41 ≤ c ∧ c ≤ 0x5a) || c = 0x5f

def isIdentChar (c : UInt8) : Bool := isIdentStart c || (0x30 ≤ c ∧ c ≤ 0x39)

/-- parse after `{{.`: an identifier followed by `}}` -/
def parseField : Bytes → Bytes → Option (Bytes × Bytes)
  | 0x7d :: 0x7d :: rest, acc => if acc.isEmpty then none else some (acc, rest)
  | c :: rest, acc =>
    if (if acc.isEmpty then isIdentStart c else isIdentChar c) then parseField rest (acc ++ [c]) else none
  | [], _ => none

/-- template parser; `fuel` is the input length (each step consumes input). -/
def parseTpl : Nat → Bytes → Bytes → Option (List TplPart)
  | 0, _, _ => none
  | _ + 1, [], lit => some (if lit.isEmpty then [] else [.lit lit])
  | fuel + 1, 0x7b :: 0x7b :: rest, lit =>
    match rest with
    | 0x2e :: rest' =>
      match parseField rest' [] with
      | some (name, rest'') =>
        (parseTpl fuel rest'' []).map fun ps => (if lit.isEmpty then [] else [.lit lit]) ++ [.field name] ++ ps
      | none => none
    | _ => none
  | fuel + 1, c :: rest, lit => parseTpl fuel rest (lit ++ [c])

/-- `template.New().Option("missingkey=error").Parse(tpl)` then `Execute(values)` -/
def execTpl (tpl : Bytes) (values : List (Bytes × Bytes)) : Res Bytes :=
  match parseTpl (tpl.length + 1) tpl [] with
  | none => .err "template-parse"
  | some parts =>
    parts.foldlM (init := []) fun acc p =>
      match p with
      | .lit b => .ok (acc ++ b)
      | .field n => match AList.lookup n values with
        | some v => .ok (acc ++ v)
        | none => .err "template-missing-key"

/-! ### Page -/

structure Page where
  cacheMap : List (Bytes × Bytes) := []
  sink : Option Bytes := none
  /-- `pg.err`: the text of the error to prepend -/
  err : Option Bytes := none
  extra : Bytes := []
  menu : Menu := {}
  sizer : Option Sizer := none
deriving Repr, DecidableEq

namespace Page

/-- `Reset()` -/
def reset (pg : Page) : Page :=
  { pg with sink := none, extra := [], cacheMap := [], menu := pg.menu.reset,
            sizer := pg.sizer.map Sizer.reset }

/-- a second, different zero-size symbol on the same page -/
def sinkConflict (pg : Page) (key : Bytes) (l : Nat) : Bool :=
  l = 0 && (match pg.sink with | some s => s != key | none => false)

/-- `Map(key)` -/
def map (pg : Page) (ca : Cache Bytes) (key : Bytes) : Res Page :=
  match ca.get key with
  | .ok v =>
    match ca.reservedSize key with
    | .ok l =>
      if sinkConflict pg key l then .err "sink-already-set"
      else .ok { pg with sink := if l = 0 then some key else pg.sink,
                         cacheMap := AList.set key v pg.cacheMap,
                         sizer := pg.sizer.map (·.set key l) }
    | _ => .err "map-size"
  | _ => .err "map-get"

/-- `split`: (values without sink content, sink symbol or "", sink rows) -/
def split (ca : Cache Bytes) (values : List (Bytes × Bytes)) :
    Res (List (Bytes × Bytes) × Bytes × List Bytes) := do
  let r ← values.foldlM (init := (([] : List (Bytes × Bytes)), ([] : Bytes), ([] : List Bytes)))
    fun (acc : List (Bytes × Bytes) × Bytes × List Bytes) (kv : Bytes × Bytes) =>
      match ca.reservedSize kv.1 with
      | .ok sz =>
        if sz = 0 then Res.ok (acc.1 ++ [(kv.1, [])], kv.1, splitOn 0x0a kv.2)
        else .ok (acc.1 ++ [kv], acc.2.1, acc.2.2)
      | _ => .err "split-size"
  if r.2.1.isEmpty then pure (values, [], []) else pure r

/-- state of the `joinSink` loop -/
structure JoinSt where
  l : Nat := 0
  count : Nat := 0
  tb : Bytes := []
  rb : Bytes := []
  net : Nat
  crsrs : List Nat

/-- `joinSink(sinkValues, remaining, menuSizes)`: the flattened pages, the page count (uint16)
and the cursors appended to the sizer. -/
def joinSink (rows : List Bytes) (remaining : Nat) (ms : Nat × Nat × Nat × Nat) (crsrs : List Nat) :
    Res (Bytes × Nat × List Nat) := do
  let net := u32sub remaining 1
  let net := if rows.length > 1 then u32sub net (u32add ms.2.1 1) else net
  let st ← rows.foldlM (init := ({ net := net, crsrs := crsrs } : JoinSt)) fun st v => do
    let st := { st with l := st.l + v.length }
    let st ←
      if st.l % U32 > u32sub st.net 1 then
        if st.tb.length = 0 then Res.err "sink-capacity"
        else
          let rb := st.rb ++ st.tb ++ [0x0a]
          let net := if st.count = 0 then u32sub st.net (u32add ms.2.2.1 1) else st.net
          Res.ok { st with rb := rb, crsrs := st.crsrs ++ [rb.length % U32], tb := [], l := v.length,
                           net := net, count := (st.count + 1) % 65536 }
      else Res.ok st
    let st := if st.tb.length > 0 then { st with tb := st.tb ++ [0x00], l := st.l + 1 } else st
    pure { st with tb := st.tb ++ v }
  let st := if st.tb.length > 0 then { st with rb := st.rb ++ st.tb, count := (st.count + 1) % 65536 } else st
  pure (trimRight 0x0a st.rb, st.count, st.crsrs)

/-- `RenderTemplate(sym, values, idx)` -/
def renderTemplate (env : RenderEnv) (pg : Page) (sym : Bytes) (values : List (Bytes × Bytes)) (idx : Nat) :
    Res Bytes := do
  let tpl ← match env.tpl sym with
    | some t => Res.ok t
    | none => .err "template-lookup"
  let tpl := tpl ++ pg.extra
  let values ← match pg.sizer with
    | some sz => sz.getAt values idx
    | none => if idx > 0 then Res.err "sizer-needed" else .ok values
  let r ← execTpl tpl values
  -- the error text is prepended to the rendered output, never parsed as template source (fix: commit)
  pure (match pg.err with
    | some e => if tpl.length = 0 then e else e ++ [0x0a] ++ r
    | none => r)

/-- `render(sym, values, idx)`: template, menu, final size audit. Returns the page with the menu
as Go leaves it. -/
def render (env : RenderEnv) (pg : Page) (sym : Bytes) (values : List (Bytes × Bytes)) (idx : Nat) :
    Res (Bytes × Page) := do
  let s ← renderTemplate env pg sym values idx
  let (ms, menu) ← pg.menu.render env idx
  let r := if ms.length > 0 then s ++ [0x0a] ++ ms else s
  let pg := { pg with menu := menu }
  match pg.sizer with
  | some sz => if (sz.check r).2 then pure (r, pg) else .err "limit-exceeded"
  | none => pure (r, pg)

/-- `"_menu"` and `"\n{{._menu}}"` as explicit bytes (so that the kernel can evaluate the renderer on
concrete cases); `#guard` below checks them against the strings. -/
def menuSinkSym : Bytes := [95, 109, 101, 110, 117]
def menuSinkExtra : Bytes := [10, 123, 123, 46, 95, 109, 101, 110, 117, 125, 125]
#guard menuSinkSym = ascii "_menu" && menuSinkExtra = ascii "\n{{._menu}}"

/-- first half of `prepare`: extract the sink (a mapped zero-size symbol, or the menu under MSINK) -/
def prepareSink (env : RenderEnv) (pg : Page) (ca : Cache Bytes) (sz0 : Sizer) :
    Res (List (Bytes × Bytes) × Bytes × List Bytes × Page × Sizer × Bool) := do
  let values := pg.cacheMap
  let (noSink, sink, rows) ← split ca values
  -- when no symbol is a sink `split` hands back the very map it was given: later writes to
  -- `noSinkValues` then land in `pg.cacheMap` too
  let aliased := sink.isEmpty
  if pg.menu.sink then
    if !sink.isEmpty then Res.err "menu-sink-and-mapped-sink"
    else
      match ({ pg.menu with keep := false }.withPages).render env 0 with
      | .ok (s, m) =>
        let rows := splitOn 0x0a s
        let sink : Bytes := menuSinkSym
        let pg := { pg with menu := m, extra := menuSinkExtra }
        let sz := { sz0 with sink := sink }
        .ok (AList.set sink [] noSink, sink, rows, pg, sz, aliased)
      | .err k => .err k
      | .panic p => .panic p
  else .ok (noSink, sink, rows, pg, sz0, aliased)

/-- second half of `prepare`: pre-render without sink content, measure what is left, group the
rows into pages -/
def prepareRest (env : RenderEnv) (sym : Bytes)
    (t : List (Bytes × Bytes) × Bytes × List Bytes × Page × Sizer × Bool) :
    Res (List (Bytes × Bytes) × Page) := do
  let (noSink, sink, rows, pg, sz, aliased) := t
  let sz := sz.addCursor 0
  let pg := { pg with sizer := some sz, cacheMap := if aliased then noSink else pg.cacheMap }
  let (s, pg) ← pg.render env sym noSink 0
  let sz := match pg.sizer with | some s => s | none => sz
  let (remaining, ok) := sz.check s
  if !ok then .err "capacity-exceeded" else do
  let ms ← pg.menu.sizes env
  let (sinkString, count, crsrs) ← joinSink rows remaining ms sz.crsrs
  let sz := { sz with crsrs := crsrs }
  let noSink := AList.set sink sinkString noSink
  let pg := { pg with sizer := some sz, menu := { pg.menu with pageCount := count },
                      cacheMap := if aliased then noSink else pg.cacheMap }
  pure (noSink, pg)

/-- `prepare(sym, values, idx)` -/
def prepare (env : RenderEnv) (pg : Page) (ca : Cache Bytes) (sym : Bytes) : Res (List (Bytes × Bytes) × Page) :=
  match pg.sizer with
  | none => .ok (pg.cacheMap, pg)
  | some sz0 => do
    let t ← prepareSink env pg ca sz0
    prepareRest env sym t

/-- `Render(sym, idx)` -/
def renderPage (env : RenderEnv) (pg : Page) (ca : Cache Bytes) (sym : Bytes) (idx : Nat) :
    Res (Bytes × Page) := do
  let (values, pg) ← pg.prepare env ca sym
  pg.render env sym values idx

end Page
end Vise
