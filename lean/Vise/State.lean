/-
  Vise.State — model of state/state.go and state/flag.go.

  Flags are a list of booleans of byte-aligned length (printed as the Go `Flags []byte`, bit i of
  byte j is flag 8*j+i). Every access checks `bitIndex+1 > BitSize` and panics like Go.
  `SizeIdx` is a `uint16`, `Moves` a `uint32`: wrap-around written out.
-/
import Vise.Basic
import Vise.Gen.Facts

namespace Vise

structure St where
  code : Bytes := []
  execPath : List Bytes := []
  bitSize : Nat := 8
  sizeIdx : Nat := 0
  flags : List Bool := []
  moves : Nat := 0
  /-- ISO-639-3 code of the selected language (`State.Language.Code`), `none` for nil -/
  language : Option Bytes := none
  /-- `State.input`; `none` is the nil slice ("no input has been set") -/
  input : Option Bytes := none
  lastMove : Nat := 0
deriving Repr, DecidableEq

namespace St

/-- `toByteSize` (result is a `uint8`) -/
def toByteSize (bitSize : Nat) : Nat :=
  if bitSize = 0 then 0 else ((bitSize + (if bitSize % 8 > 0 then 8 - bitSize % 8 else 0)) / 8) % 256

/-- `NewState(flagCount)` -/
def new (flagCount : Nat) : St :=
  let bs := (flagCount + 8) % 4294967296
  { bitSize := bs, flags := List.replicate (8 * toByteSize bs) false }

/-- `GetFlag` -/
def getFlag (st : St) (i : Nat) : Res Bool :=
  if i + 1 > st.bitSize then .panic "flag-index-out-of-range"
  else match st.flags[i]? with
    | some b => .ok b
    | none => .panic "flag-byte-index"

/-- `SetFlag`: returns (changed, state) -/
def setFlag (st : St) (i : Nat) : Res (Bool × St) := do
  let b ← st.getFlag i
  if b then pure (false, st) else pure (true, { st with flags := st.flags.set i true })

/-- `ResetFlag` -/
def resetFlag (st : St) (i : Nat) : Res (Bool × St) := do
  let b ← st.getFlag i
  if !b then pure (false, st) else pure (true, { st with flags := st.flags.set i false })

/-- `MatchFlag(sig, mode)` -/
def matchFlag (st : St) (sig : Nat) (mode : Bool) : Res Bool := do
  let b ← st.getFlag sig
  pure (mode == b)

/-- `Where` -/
def «where» (st : St) : Bytes × Nat :=
  match st.execPath.getLast? with
  | none => ([], 0)
  | some s => (s, st.sizeIdx)

/-- `Next` -/
def next (st : St) : Res (Nat × St) :=
  if st.execPath.isEmpty then .err "no-root"
  else
    let idx := (st.sizeIdx + 1) % 65536
    .ok (idx, { st with sizeIdx := idx, moves := (st.moves + 1) % 4294967296, lastMove := 2 })

/-- `Same` -/
def same (st : St) : St := { st with moves := (st.moves + 1) % 4294967296 }

/-- `Previous`; `IndexError` is the distinguished error kind "index". -/
def previous (st : St) : Res (Nat × St) :=
  if st.execPath.isEmpty then .err "no-root"
  else if st.sizeIdx = 0 then .err "index"
  else
    let idx := st.sizeIdx - 1
    .ok (idx, { st with sizeIdx := idx, moves := (st.moves + 1) % 4294967296, lastMove := 4 })

/-- `Top` -/
def top (st : St) : Res Bool :=
  if st.execPath.isEmpty then .err "no-root" else .ok (st.execPath.length = 1)

/-- `Down`: the two explicit panics are kept (the test suite expects the max-level one). -/
def down (st : St) (sym : Bytes) : Res St :=
  if st.execPath.length > Facts.maxLevel then .panic "maxlevel"
  else if st.execPath.getLast? = some sym then .panic "down-into-same-node"
  else .ok { st with execPath := st.execPath ++ [sym], sizeIdx := 0,
                     moves := (st.moves + 1) % 4294967296, lastMove := 0 }

/-- `Up`: returns the new current symbol ("" when the stack is now empty). -/
def up (st : St) : Res (Bytes × St) :=
  if st.execPath.isEmpty then .err "beyond-top"
  else
    let p := st.execPath.dropLast
    .ok ((p.getLast?).getD [],
      { st with execPath := p, sizeIdx := 0, moves := (st.moves + 1) % 4294967296, lastMove := 1 })

def depth (st : St) : Int := (st.execPath.length : Int) - 1

/-- `GetCode` (clears the stored code) -/
def getCode (st : St) : Bytes × St := (st.code, { st with code := [] })

def setCode (st : St) (b : Bytes) : St := { st with code := b }

/-- `GetInput` -/
def getInput (st : St) : Res Bytes :=
  match st.input with
  | none => .err "no-input"
  | some i => .ok i

/-- `SetInput`; the argument is an `Option` because the engine passes back a saved nil slice. -/
def setInput (st : St) (i : Option Bytes) : Res St :=
  match i with
  | none => .ok { st with input := none }
  | some b => if b.length > Facts.inputLimit then .err "input-too-long" else .ok { st with input := some b }

/-- `Restart` (its error when no root is set is ignored by the only caller) -/
def restart (st : St) : Res St :=
  if st.execPath.isEmpty then .err "no-root"
  else
    match st.flags with
    | [] => .panic "Flags[0]"
    | _ =>
      .ok { st with flags := (List.replicate 8 false) ++ st.flags.drop 8, moves := 0, sizeIdx := 0,
                    input := some [], execPath := st.execPath.take 1, lastMove := 0 }

/-- `SetLanguage(code)` with the ISO table as a parameter. An empty code first clears the
language and then fails the lookup (as in Go: the `if code == ""` branch does not return). -/
def setLanguage (langOf : Bytes → Option Bytes) (st : St) (code : Bytes) : Res St :=
  let st := if code.isEmpty then { st with language := none } else st
  match langOf code with
  | none => .err "invalid-language"      -- NB the state change above is kept by Go too
  | some l => .ok { st with language := some l }

/-- state after `SetLanguage` whether or not it failed (Go mutates before returning the error) -/
def setLanguageSt (langOf : Bytes → Option Bytes) (st : St) (code : Bytes) : St :=
  let st := if code.isEmpty then { st with language := none } else st
  match langOf code with
  | none => st
  | some l => { st with language := some l }

/-- Flags as the Go byte slice. -/
def flagBytes (st : St) : Bytes :=
  let rec go (l : List Bool) (fuel : Nat) : Bytes :=
    match fuel with
    | 0 => []
    | fuel + 1 =>
      if l.isEmpty then [] else
        let byte := (l.take 8).zipIdx.foldl (fun a (p : Bool × Nat) => if p.1 then a + 2 ^ p.2 else a) 0
        UInt8.ofNat byte :: go (l.drop 8) fuel
  go st.flags (st.flags.length + 1)

def flagsOfBytes (b : Bytes) : List Bool :=
  b.flatMap (fun x => (List.range 8).map (fun i => x.toNat / 2 ^ i % 2 = 1))

end St

/-- `state.IsWriteableFlag`, with the comparison and threshold as regenerated from the source. -/
def isWriteableFlag (flag : Nat) : Bool :=
  if Facts.writeableCmp = ">" then flag > Facts.nonwriteableThreshold
  else if Facts.writeableCmp = ">=" then flag ≥ Facts.nonwriteableThreshold
  else false

end Vise
