/-
  Vise.Tie.Codec — vm/vm.go `opSplit` and `instructionSplit`, the two decoding steps every instruction goes through, as regenerated
  from the Go source by harness/cmd/gotrans on every run are EQUAL to the model's definitions. The regenerated definitions live in
  the Option monad (`none` = a run-time panic of an index, slice or big-endian read); the model names its panic sites. The equations
  say that the Go source has no reachable panic in these two functions and returns errors exactly where the model does.
-/
import Vise.Codec
import Vise.Gen.Fn.Vm_opSplit
import Vise.Gen.Fn.Vm_instructionSplit

namespace Vise.Tie

open Vise
/-- `opSplit`: too short and unknown opcodes are errors that hand the input back; otherwise opcode and rest. Never `none`: the
big-endian read and the slice are guarded by the length test. -/
theorem opSplit_tie (b : Bytes) :
    GenFn.vm_opSplit b =
      (match opSplit b with
       | .ok (op, rest) => some (op, rest, "")
       | .err _ => some (0, b, "errorf")
       | .panic _ => none) := by
  unfold GenFn.vm_opSplit opSplit
  match b with
  | [] => simp
  | [x] => simp
  | x :: y :: rest =>
    have h2 : ¬ (((x :: y :: rest).length : Int) < 2) := by simp; omega
    have n2 : ¬ (x :: y :: rest).length < 2 := by simp
    simp only [h2, n2, decide_false, Bool.false_eq_true, if_false]
    simp [goIdx, goFrom, Facts.opMax]
    by_cases hop : 12 < x.toNat * 256 + y.toNat
    · simp [hop]
    · have g : (2 : Int) ≤ ↑rest.length + 1 + 1 := by omega
      have et : (↑rest.length + 1 + 1 - 2 : Int).toNat = rest.length := by omega
      have em : (x.toNat * 256 + y.toNat) % 65536 = x.toNat * 256 + y.toNat := by omega
      simp [hop, g, et, em]

/-- `instructionSplit` (length byte, symbol, rest): empty input, a zero length byte and a symbol longer than what is left are errors;
the two slices of the good case are always in range. -/
theorem instructionSplit_tie (b : Bytes) :
    GenFn.vm_instructionSplit b =
      (match instructionSplit b with
       | .ok (r, rest) => some (r, rest, "")
       | .err _ => some ([], [], "errorf")
       | .panic _ => none) := by
  unfold GenFn.vm_instructionSplit instructionSplit
  match b with
  | [] => simp
  | x :: rest =>
    have h0 : ¬ (((x :: rest).length : Int) = 0) := by simp; omega
    simp only [h0, decide_false, Bool.false_eq_true, if_false]
    simp [goIdx, goFrom, goSlice]
    by_cases hx : x = 0
    · subst hx; simp
    · have hx' : ¬ x.toNat = 0 := fun h => hx (UInt8.toNat_inj.mp (by simpa using h))
      by_cases hs : rest.length + 1 ≤ x.toNat
      · have hs' : (↑rest.length + 1 : Int) ≤ ↑x.toNat := by omega
        simp [hx, hx', hs, hs']
      · have hs' : ¬ (↑rest.length + 1 : Int) ≤ ↑x.toNat := by omega
        have g1 : (1 : Int) ≤ 1 + ↑x.toNat ∧ (1 + ↑x.toNat : Int) ≤ ↑rest.length + 1 := by omega
        have g2 : (0 : Int) ≤ 1 + ↑x.toNat ∧ (1 + ↑x.toNat : Int) ≤ ↑rest.length + 1 := by omega
        have g3 : 1 + x.toNat ≤ rest.length + 1 := by omega
        have e1 : (1 + ↑x.toNat : Int).toNat = 1 + x.toNat := by omega
        have e2 : (↑rest.length + 1 - (1 + ↑x.toNat) : Int).toNat = rest.length - x.toNat := by omega
        simp only [hx, hx', hs, hs', g1, g2, g3, e1, e2, if_true, if_false, and_self, Option.bind_some]
        simp [Res.bind, bind]
        constructor
        · rw [Nat.add_comm 1 x.toNat, List.take_succ_cons, List.tail_cons]
        · apply List.take_of_length_le
          simp [Nat.add_comm 1 x.toNat]

/-- the regenerated decoders on concrete bytes: `LOAD`'s opcode with a rest, an unknown opcode, a symbol argument, a length byte past the end -/
example : GenFn.vm_opSplit [0, 3, 3, 0x66, 0x6f, 0x6f] = some (3, [3, 0x66, 0x6f, 0x6f], "") ∧ GenFn.vm_opSplit [0, 13] = some (0, [0, 13], "errorf") ∧
    GenFn.vm_instructionSplit [3, 0x66, 0x6f, 0x6f, 9] = some ([0x66, 0x6f, 0x6f], [9], "") ∧ GenFn.vm_instructionSplit [3, 0x66, 0x6f] = some ([], [], "errorf") := by decide

end Vise.Tie

#print axioms Vise.Tie.opSplit_tie
#print axioms Vise.Tie.instructionSplit_tie
