/-
  Vise.Tie.DbKey — db/db.go key derivation (`ToSessionKey`, `ToDbKey`) as regenerated from the Go source by
  harness/cmd/gotrans on every run is EQUAL to the model's. `storageKey_injective_on` and the isolation theorems
  of C11 are about exactly these functions.
-/
import Vise.Db
import Vise.Gen.Fn.Db_ToSessionKey
import Vise.Gen.Fn.Db_ToDbKey

namespace Vise.Tie

open Vise

theorem toSessionKey_tie (sid : Bytes) (pfx : Nat) (key : Bytes) :
    GenFn.db_ToSessionKey pfx key sid = toSessionKey sid pfx key := by
  unfold GenFn.db_ToSessionKey toSessionKey
  by_cases h : pfx > Facts.sessionedThreshold
  · have h' : pfx > 8 := h
    simp [h, h']
  · have h' : ¬ pfx > 8 := h
    simp [h, h']

/-- `ToDbKey`: a nil language pointer is `none`, otherwise `some code`. -/
theorem toDbKey_tie (typ : Nat) (b : Bytes) (l : Option Bytes) :
    GenFn.db_ToDbKey typ b (l.getD []) l.isNone = toDbKey typ b l := by
  unfold GenFn.db_ToDbKey toDbKey
  have hl : langTypes = 14 := by decide
  have hs : ascii Facts.langSep = ([95] : Bytes) := by decide +kernel
  cases l with
  | none => simp
  | some code =>
    by_cases hc : code = []
    · simp [hc]
    · by_cases ht : typ &&& 14 > 0
      · simp [hc, ht, hl, hs]
      · simp [hc, ht, hl]

end Vise.Tie

#print axioms Vise.Tie.toSessionKey_tie
#print axioms Vise.Tie.toDbKey_tie
