/-
  Vise.Tie.DbKey — db/db.go key derivation (`ToSessionKey`, `ToDbKey`) as regenerated from the Go source by
  harness/cmd/gotrans on every run is EQUAL to the model's. `storageKey_injective_on` and the isolation theorems
  of C11 are about exactly these functions.
-/
import Vise.Db
import Vise.Gen.Fn.Db_ToSessionKey
import Vise.Gen.Fn.Db_ToDbKey
import Vise.Gen.Fn.Db_FromSessionKey
import Vise.Gen.Fn.Db_FromDbKey

namespace Vise.Tie

open Vise

theorem toSessionKey_tie (sid : Bytes) (pfx : Nat) (key : Bytes) :
    GenFn.db_ToSessionKey pfx key sid = toSessionKey sid pfx key := by
  unfold GenFn.db_ToSessionKey toSessionKey
  by_cases h : pfx > Facts.sessionedThreshold
  · have h' : pfx > 8 := h
    simp [h, h']
  · have h' : ¬ pfx > 8 := h
    simp [h, h']

/-- `ToDbKey`: a nil language pointer is `none`, otherwise `some code`. -/
theorem toDbKey_tie (typ : Nat) (b : Bytes) (l : Option Bytes) :
    GenFn.db_ToDbKey typ b (l.getD []) l.isNone = toDbKey typ b l := by
  unfold GenFn.db_ToDbKey toDbKey
  have hl : langTypes = 14 := by decide
  have hs : ascii Facts.langSep = ([95] : Bytes) := by decide +kernel
  cases l with
  | none => simp
  | some code =>
    by_cases hc : code = []
    · simp [hc]
    · by_cases ht : typ &&& 14 > 0
      · simp [hc, ht, hl, hs]
      · simp [hc, ht, hl]

/-- `FromSessionKey` (the inverse direction, used by `DecodeKey` when a listing turns file names back into keys):
the session prefix is checked and removed; a key of another session is an error. -/
theorem fromSessionKey_tie (sid key : Bytes) :
    GenFn.db_FromSessionKey key sid =
      (match Fs.fromSessionKey sid key with
       | .ok k => (k, "")
       | _ => ([], "errorf")) := by
  unfold GenFn.db_FromSessionKey Fs.fromSessionKey
  cases sid with
  | nil => simp
  | cons a l =>
    by_cases h : List.isPrefixOf (a :: l) key
    · simp [h]
    · simp [h]

theorem u8_eq_95 (c : UInt8) : c.toNat = 95 ↔ c = 95 := by
  constructor
  · intro h; exact UInt8.toNat_inj.mp (by simpa using h)
  · intro h; subst h; rfl

/-- `FromDbKey` (type byte and language suffix removed from a stored key). The regenerated definition lives in the Option monad,
`none` being the run-time panic of an index or slice expression out of range: the equation also says that it never panics. -/
theorem fromDbKey_tie (b : Bytes) :
    GenFn.db_FromDbKey b =
      some (match Fs.fromDbKey b with
       | .ok k => (k, "")
       | _ => ([], "errorf")) := by
  unfold GenFn.db_FromDbKey Fs.fromDbKey
  have hl : langTypes = 14 := by decide
  match b with
  | [] => simp
  | [x] => simp
  | x :: y :: rest =>
    have h2 : ¬ (((x :: y :: rest).length : Int) < 2) := by simp; omega
    simp only [h2, decide_false, Bool.false_eq_true, if_false]
    simp [hl]
    have g1 : (1 : Int) ≤ ↑rest.length + 1 + 1 := by omega
    have n2 : ¬ rest.length + 1 + 1 < 2 := by omega
    simp only [g1, if_true, Option.bind_some]
    by_cases ht : 0 < x.toNat &&& 14
    · by_cases h6 : 6 < rest.length + 1
      · have h6' : (6 : Int) < ↑rest.length + 1 := by omega
        have g4 : (4 : Int) ≤ ↑rest.length + 1 := by omega
        have g5 : (↑rest.length + 1 - 4 : Int) ≤ ↑rest.length + 1 := by omega
        have ei : (↑rest.length + 1 - 4 : Int).toNat = rest.length - 3 := by omega
        simp only [ht, h6, h6', g4, g5, ei, if_true, and_self, true_and, Option.bind_some]
        cases hq : (y :: rest)[rest.length - 3]? with
        | none =>
          have := List.getElem?_eq_none_iff.mp hq
          simp at this; omega
        | some c =>
          by_cases hc : c = 95
          · simp [hc, n2]
          · have : ¬ c.toNat = 95 := fun h => hc ((u8_eq_95 c).mp h)
            simp [hc, this, n2]
      · have h6' : ¬ (6 : Int) < ↑rest.length + 1 := by omega
        simp [ht, h6, h6', n2]
    · simp [ht, n2]

end Vise.Tie

#print axioms Vise.Tie.toSessionKey_tie
#print axioms Vise.Tie.toDbKey_tie
#print axioms Vise.Tie.fromSessionKey_tie
#print axioms Vise.Tie.fromDbKey_tie
