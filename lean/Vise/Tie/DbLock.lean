/-
  Vise.Tie.DbLock — db/db.go write-protection tests (`Safe`, `CheckPut`) as regenerated from the Go source by
  harness/cmd/gotrans on every run are EQUAL to the model's (C10: writes to locked data types are refused).
-/
import Vise.Db
import Vise.Gen.Fn.Db_Safe
import Vise.Gen.Fn.Db_CheckPut
import Vise.Gen.Fn.Db_SetLock

namespace Vise.Tie

open Vise

theorem safe_tie (c : DbCtx) : GenFn.db_Safe c.lock = c.safe := by
  unfold GenFn.db_Safe DbCtx.safe
  rfl

theorem checkPut_tie (c : DbCtx) : GenFn.db_CheckPut c.lock c.pfx = c.checkPut := by
  unfold GenFn.db_CheckPut DbCtx.checkPut
  rfl

/-- `SetLock` (with `defaultLock` inlined): error on a sealed store, sealing with every read-only type locked,
locking and unlocking a mask of types. `pfx` and the lock field are `uint8`. -/
theorem setLock_tie (c : DbCtx) (pfx : Nat) (lock : Bool) (hp : pfx < 256) (hl : c.lock < 256) :
    GenFn.db_SetLock pfx lock c.lock c.isSealed =
      (match c.setLock pfx lock with
       | .ok c' => ("", c'.lock, c'.isSealed)
       | _ => ("errorf", c.lock, c.isSealed)) := by
  unfold GenFn.db_SetLock DbCtx.setLock
  by_cases hs : c.isSealed
  · simp [hs]
  · by_cases h0 : pfx = 0
    · simp [hs, h0, Facts.safeLock]
    · cases lock
      · have e1 : pfx % 256 = pfx := Nat.mod_eq_of_lt hp
        have e2 : (255 - pfx) % 256 = 255 - pfx := Nat.mod_eq_of_lt (by omega)
        simp [hs, h0, e1, e2]
      · have e : (c.lock ||| pfx) % 256 = c.lock ||| pfx :=
          Nat.mod_eq_of_lt (Nat.or_lt_two_pow (n := 8) hl hp)
        simp [hs, h0, e]

/-- non-vacuity: unlocking TEMPLATE and re-locking the combined mask TEMPLATE|MENU|BIN leaves TEMPLATE locked (the sequence of seed C10/12) -/
example : GenFn.db_SetLock 7 true (15 &&& (255 - 4)) false = ("", 15, false) := by decide

end Vise.Tie

#print axioms Vise.Tie.safe_tie
#print axioms Vise.Tie.checkPut_tie
#print axioms Vise.Tie.setLock_tie
