/-
  Vise.Tie.DbLock — db/db.go write-protection tests (`Safe`, `CheckPut`) as regenerated from the Go source by
  harness/cmd/gotrans on every run are EQUAL to the model's (C10: writes to locked data types are refused).
-/
import Vise.Db
import Vise.Gen.Fn.Db_Safe
import Vise.Gen.Fn.Db_CheckPut

namespace Vise.Tie

open Vise

theorem safe_tie (c : DbCtx) : GenFn.db_Safe c.lock = c.safe := by
  unfold GenFn.db_Safe DbCtx.safe
  rfl

theorem checkPut_tie (c : DbCtx) : GenFn.db_CheckPut c.lock c.pfx = c.checkPut := by
  unfold GenFn.db_CheckPut DbCtx.checkPut
  rfl

end Vise.Tie

#print axioms Vise.Tie.safe_tie
#print axioms Vise.Tie.checkPut_tie
