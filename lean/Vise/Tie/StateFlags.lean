/-
  Vise.Tie.StateFlags — state/flag.go `IsWriteableFlag` and state/state.go `toByteSize` as regenerated from the
  Go source by harness/cmd/gotrans on every run are EQUAL to the model's definitions.

  These are proof obligations of the tie, not property theorems: when the source of one of these
  functions changes, the regenerated definition changes and the equation no longer checks.
  Hypotheses `x < 2^N` state that a Go value of type uintN is in range.
-/
import Vise.State
import Vise.Gen.Fn.State_IsWriteableFlag
import Vise.Gen.Fn.State_toByteSize

namespace Vise.Tie

open Vise

/-- `state.IsWriteableFlag` as written in the source is the model's `isWriteableFlag`. -/
theorem isWriteableFlag_tie (flag : Nat) :
    GenFn.state_IsWriteableFlag flag = isWriteableFlag flag := by
  unfold GenFn.state_IsWriteableFlag isWriteableFlag
  simp [Facts.writeableCmp, Facts.nonwriteableThreshold]

/-- `toByteSize` (uint32 -> uint8). -/
theorem toByteSize_tie (n : Nat) (h : n < 4294967296) :
    GenFn.state_toByteSize n = St.toByteSize n := by
  unfold GenFn.state_toByteSize St.toByteSize
  by_cases h0 : n = 0
  · simp [h0]
  · simp only [h0, decide_false, Bool.false_eq_true, if_false]
    by_cases h8 : n % 8 > 0
    · have e1 : (8 + 4294967296 - n % 8) % 4294967296 = 8 - n % 8 := by omega
      by_cases hb : n + (8 - n % 8) < 4294967296
      · have e2 : (n + (8 - n % 8)) % 4294967296 = n + (8 - n % 8) := Nat.mod_eq_of_lt hb
        simp [h8, e1, e2]
      · -- the uint32 addition wraps only for n > 2^32 - 8; the model leaves the sum unreduced
        have e2 : (n + (8 - n % 8)) % 4294967296 = 0 := by omega
        have e3 : (n + (8 - n % 8)) / 8 % 256 = 0 := by omega
        simp [h8, e1, e2, e3]
    · simp [h8]

/-- the hypothesis is met at the boundary where the `uint32` addition wraps, and both sides give the same byte count there -/
example : (4294967295 : Nat) < 4294967296 ∧ GenFn.state_toByteSize 4294967295 = 0 ∧ St.toByteSize 4294967295 = 0 := by decide
example : GenFn.state_toByteSize 13 = 2 ∧ GenFn.state_IsWriteableFlag 5 = false ∧ GenFn.state_IsWriteableFlag 6 = true := by decide

end Vise.Tie

#print axioms Vise.Tie.isWriteableFlag_tie
#print axioms Vise.Tie.toByteSize_tie
