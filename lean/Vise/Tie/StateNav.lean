/-
  Vise.Tie.StateNav — state/state.go `Next`, `Previous`, `Same`, `Top`, `Sides` as regenerated from the Go
  source by harness/cmd/gotrans on every run are EQUAL to the model's definitions (results, error
  kind, and every receiver field the function assigns).
-/
import Vise.State
import Vise.Gen.Fn.State_Next
import Vise.Gen.Fn.State_Previous
import Vise.Gen.Fn.State_Same
import Vise.Gen.Fn.State_Sides
import Vise.Gen.Fn.State_Top

namespace Vise.Tie

open Vise

/-- `State.Next`: result, error and the three assigned fields. -/
theorem next_tie (st : St) :
    GenFn.state_Next st.execPath st.moves st.sizeIdx st.lastMove =
      (match st.next with
       | .ok (i, st') => (i, "", st'.moves, st'.sizeIdx, st'.lastMove)
       | _ => (0, "errorf", st.moves, st.sizeIdx, st.lastMove)) := by
  unfold GenFn.state_Next St.next
  cases h : st.execPath <;> simp

/-- `State.Previous`; the distinguished `IndexError` is the model's error kind "index". -/
theorem previous_tie (st : St) (hi : st.sizeIdx < 65536) :
    GenFn.state_Previous st.execPath st.moves st.sizeIdx st.lastMove =
      (match st.previous with
       | .ok (i, st') => (i, "", st'.moves, st'.sizeIdx, st'.lastMove)
       | .err "index" => (0, "IndexError", st.moves, st.sizeIdx, st.lastMove)
       | _ => (0, "errorf", st.moves, st.sizeIdx, st.lastMove)) := by
  unfold GenFn.state_Previous St.previous
  cases h : st.execPath with
  | nil => simp
  | cons a l =>
    by_cases h0 : st.sizeIdx = 0
    · simp [h0]
    · have e : (st.sizeIdx + 65535) % 65536 = st.sizeIdx - 1 := by omega
      simp [h0, e]

theorem same_tie (st : St) : GenFn.state_Same st.moves = st.same.moves := by
  unfold GenFn.state_Same St.same; rfl

/-- `State.Top`. -/
theorem top_tie (st : St) :
    GenFn.state_Top st.execPath =
      (match st.top with
       | .ok b => (b, "")
       | _ => (false, "errorf")) := by
  unfold GenFn.state_Top St.top
  cases h : st.execPath <;> simp

/-- `State.Sides`: "next" is always on offer below the root, "previous" from page 1 on. -/
theorem sides_tie (p : List Bytes) (i : Nat) :
    GenFn.state_Sides p i = (if p.isEmpty then (false, false) else (true, decide (i ≠ 0))) := by
  unfold GenFn.state_Sides
  cases p <;> by_cases h : i = 0 <;> simp [h]

/-- non-vacuity: a state on page 3 of a node two levels down meets the range hypothesis; on page 0 the source returns `IndexError` -/
example : GenFn.state_Previous [[0x61], [0x62]] 7 3 2 = (2, "", 8, 2, 4) ∧ GenFn.state_Previous [[0x61]] 7 0 0 = (0, "IndexError", 7, 0, 0) := by decide

end Vise.Tie

#print axioms Vise.Tie.next_tie
#print axioms Vise.Tie.previous_tie
#print axioms Vise.Tie.same_tie
#print axioms Vise.Tie.top_tie
#print axioms Vise.Tie.sides_tie
