/-
  Vise.Tie.StateStack — state/state.go `Down` and `Up` (the navigation stack) as regenerated from the Go source by
  harness/cmd/gotrans on every run are EQUAL to the model's definitions, panics included: the regenerated definitions
  live in the Option monad, `none` being a run-time panic (the explicit `panic(...)` calls of `Down`, or an index or
  slice expression out of range - of which the equations show there is none).
-/
import Vise.State
import Vise.Gen.Fn.State_Down
import Vise.Gen.Fn.State_Up
import Vise.Gen.Fn.State_Where
import Vise.Gen.Fn.State_Depth

namespace Vise.Tie

open Vise

theorem getLast_index (p : List Bytes) (h : p ≠ []) :
    p[p.length - 1]? = p.getLast? := by
  rw [List.getLast?_eq_getElem?]

/-- `State.Down`: both explicit panics, and otherwise the pushed symbol with index, move counter and last move. -/
theorem down_tie (st : St) (sym : Bytes) :
    GenFn.state_Down sym st.execPath st.moves st.sizeIdx st.lastMove =
      (match st.down sym with
       | .ok st' => some ("", st'.execPath, st'.moves, st'.sizeIdx, st'.lastMove)
       | _ => none) := by
  unfold GenFn.state_Down St.down
  by_cases hm : st.execPath.length > Facts.maxLevel
  · have hm' : (st.execPath.length : Int) > 128 := by
      have : st.execPath.length > 128 := hm
      omega
    simp [hm, hm']
  · have hm' : ¬ (st.execPath.length : Int) > 128 := by
      have : ¬ st.execPath.length > 128 := hm
      omega
    simp only [hm, hm', decide_false, Bool.false_eq_true, if_false]
    cases hp : st.execPath with
    | nil => simp
    | cons a l =>
      have hl : ((a :: l).length : Int) > 0 := by simp
      have hi : (0 : Int) ≤ ((a :: l).length : Int) - 1 := by simp
      have ei : (((a :: l).length : Int) - 1).toNat = (a :: l).length - 1 := by simp
      simp only [hl, hi, ei, decide_true, if_true]
      rw [getLast_index (a :: l) (by simp)]
      cases hq : (a :: l).getLast? with
      | none => simp at hq
      | some top =>
        by_cases he : top = sym
        · simp [he]
        · have : ¬ some top = some sym := by simpa using he
          simp [he]

/-- `State.Up`: the error at the empty stack, otherwise the popped stack and the new current symbol ("" at the bottom). -/
theorem up_tie (st : St) :
    GenFn.state_Up st.execPath st.moves st.sizeIdx st.lastMove =
      some (match st.up with
       | .ok (s, st') => (s, "", st'.execPath, st'.moves, st'.sizeIdx, st'.lastMove)
       | _ => ([], "errorf", st.execPath, st.moves, st.sizeIdx, st.lastMove)) := by
  unfold GenFn.state_Up St.up
  cases hp : st.execPath with
  | nil => simp
  | cons a l =>
    have h0 : ¬ (((a :: l).length : Int) = 0) := by simp; omega
    have g : (0 : Int) ≤ ((a :: l).length : Int) - 1 ∧ ((a :: l).length : Int) - 1 ≤ ((a :: l).length : Int) := by
      constructor <;> simp <;> omega
    have et : (List.drop (0 : Int).toNat (a :: l)).take ((((a :: l).length : Int) - 1) - 0).toNat = (a :: l).dropLast := by
      simp [List.dropLast_eq_take]
    simp only [h0, decide_false, Bool.false_eq_true, if_false, g, and_self, Int.le_refl, true_and, if_true, et]
    simp only [Option.bind_eq_bind, Option.bind_some]
    cases hd : (a :: l).dropLast with
    | nil => simp
    | cons b m =>
      have hl : ((b :: m).length : Int) > 0 := by simp
      have hi : (0 : Int) ≤ ((b :: m).length : Int) - 1 := by simp
      have ei : (((b :: m).length : Int) - 1).toNat = (b :: m).length - 1 := by simp
      simp only [hl, hi, ei, decide_true, if_true]
      rw [getLast_index (b :: m) (by simp)]
      cases hq : (b :: m).getLast? with
      | none => simp at hq
      | some top => simp

/-- `State.Where`: the current node and page index ("" and 0 before the first descent); its index expression is never out of range. -/
theorem where_tie (st : St) :
    GenFn.state_Where st.execPath st.sizeIdx = some st.where := by
  unfold GenFn.state_Where St.where
  cases hp : st.execPath with
  | nil => simp
  | cons a l =>
    have h0 : ¬ (((a :: l).length : Int) = 0) := by simp; omega
    have hi : (0 : Int) ≤ ((a :: l).length : Int) - 1 := by simp
    have ei : (((a :: l).length : Int) - 1).toNat = (a :: l).length - 1 := by simp
    simp only [h0, hi, ei, decide_false, Bool.false_eq_true, if_false, if_true]
    rw [getLast_index (a :: l) (by simp)]
    cases hq : (a :: l).getLast? with
    | none => simp at hq
    | some top => simp

/-- `State.Depth` (an `int`: -1 before the first descent). -/
theorem depth_tie (st : St) : GenFn.state_Depth st.execPath = st.depth := by
  unfold GenFn.state_Depth St.depth
  rfl

/-- the regenerated `Down` on concrete stacks: a descent, the panic on descending into the current node, the panic above `MaxLevel` -/
example : GenFn.state_Down [0x62] [[0x61]] 4 2 2 = some ("", [[0x61], [0x62]], 5, 0, 0) ∧ GenFn.state_Down [0x61] [[0x61]] 4 2 2 = none := by decide
example : GenFn.state_Down [0x62] (List.replicate 129 [0x61]) 0 0 0 = none := by
  simp [GenFn.state_Down]

end Vise.Tie

#print axioms Vise.Tie.down_tie
#print axioms Vise.Tie.up_tie
#print axioms Vise.Tie.where_tie
#print axioms Vise.Tie.depth_tie
