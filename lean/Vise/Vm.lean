/-
  Vise.Vm — model of vm/runner.go and vm/input.go.

  The VM is a state-and-error computation `VM α = VmSt → VRes α × VmSt`: the state is returned on
  every outcome, because Go does not roll the state back when an instruction fails.
  Errors carry the exact Go message (`msg`) whenever it can end up in a rendered page (the error
  prefix); `opaque` marks messages the model does not reproduce byte for byte.
  Resource lookups and external functions are parameters (`Env`); every lookup and call is
  appended to ghost logs with the language it was made in (used by C05, C06, C17, C18).
-/
import Vise.Codec
import Vise.State
import Vise.Render

namespace Vise

/-- what an external function (`resource.EntryFunc`) returns -/
structure ExtResult where
  content : Bytes := []
  status : Int := 0
  flagSet : List Nat := []
  flagReset : List Nat := []
  /-- the handler returned a non-nil error -/
  fail : Bool := false
deriving Repr, DecidableEq

/-- the application: resource lookups by (language, symbol) and external functions. -/
structure Env where
  code : Option Bytes → Bytes → Option Bytes
  tpl : Option Bytes → Bytes → Option Bytes
  label : Option Bytes → Bytes → Option Bytes
  /-- `FuncFor(sym)` then the call: `none` = no such function. Arguments: how many external calls
  were made before this one in the session's history, symbol, input, language. -/
  ext : Nat → Bytes → Option Bytes → Option Bytes → Option ExtResult
  /-- `lang.LanguageFromCode`: ISO-639 code → part-3 code -/
  langOf : Bytes → Option Bytes
  /-- the engine's `first` function, if any -/
  first : Option (Nat → Option Bytes → Option Bytes → ExtResult) := none

structure Ghost where
  /-- external calls: (symbol, input, language) -/
  calls : List (Bytes × Option Bytes × Option Bytes) := []
  /-- resource lookups: (kind, symbol, language) -/
  lookups : List (String × Bytes × Option Bytes) := []
  /-- navigation events: (instruction kind, target as written) -/
  moves : List (String × Bytes) := []
  /-- total number of external calls in the whole history (index for `Env.ext`) -/
  ncalls : Nat := 0
deriving Repr, DecidableEq

structure VmSt where
  st : St
  ca : Cache Bytes
  pg : Page
  sep : Bytes := [0x3a]
  /-- page error text is not reproduced byte for byte -/
  errOpaque : Bool := false
  ghost : Ghost := {}

inductive VRes (α : Type) where
  | ok (v : α)
  | err (kind : String) (msg : Bytes)
  | panic (site : String)
deriving Repr

abbrev VM (α : Type) := VmSt → VRes α × VmSt

namespace VM

@[inline] def pure' {α} (a : α) : VM α := fun s => (.ok a, s)

@[inline] def bind' {α β} (x : VM α) (f : α → VM β) : VM β := fun s =>
  match x s with
  | (.ok a, s') => f a s'
  | (.err k m, s') => (.err k m, s')
  | (.panic p, s') => (.panic p, s')

instance : Monad VM where
  pure := pure'
  bind := bind'

def fail {α} (kind : String) (msg : Bytes) : VM α := fun s => (.err kind msg, s)
def vpanic {α} (site : String) : VM α := fun s => (.panic site, s)
def get : VM VmSt := fun s => (.ok s, s)
def modify (f : VmSt → VmSt) : VM Unit := fun s => (.ok (), f s)

/-- lift a `Res`, giving the error its Go message -/
def lift {α} (r : Res α) (msg : String → Bytes := fun k => ascii k) : VM α := fun s =>
  match r with
  | .ok a => (.ok a, s)
  | .err k => (.err k (msg k), s)
  | .panic p => (.panic p, s)

/-- run a computation that cannot be allowed to fail the caller: `try … catch` returning the outcome -/
def attempt {α} (x : VM α) : VM (VRes α) := fun s =>
  let (r, s') := x s
  (.ok r, s')

end VM

open VM

/-! ### flag helpers on the VM state -/

def getFlagM (i : Nat) : VM Bool := do
  let s ← get
  lift (s.st.getFlag i)

def setFlagM (i : Nat) : VM Bool := do
  let s ← get
  let (c, st) ← lift (s.st.setFlag i)
  modify fun s => { s with st := st }
  pure c

def resetFlagM (i : Nat) : VM Bool := do
  let s ← get
  let (c, st) ← lift (s.st.resetFlag i)
  modify fun s => { s with st := st }
  pure c

def matchFlagM (i : Nat) (mode : Bool) : VM Bool := do
  let b ← getFlagM i
  pure (mode == b)

def logLookup (kind : String) (sym : Bytes) (lang : Option Bytes) : VM Unit :=
  modify fun s => { s with ghost := { s.ghost with lookups := s.ghost.lookups ++ [(kind, sym, lang)] } }

def logMove (kind : String) (target : Bytes) : VM Unit :=
  modify fun s => { s with ghost := { s.ghost with moves := s.ghost.moves ++ [(kind, target)] } }

/-! ### vm/input.go -/

def isAlnum (c : UInt8) : Bool :=
  (0x61 ≤ c ∧ c ≤ 0x7a) || (0x41 ≤ c ∧ c ≤ 0x5a) || (0x30 ≤ c ∧ c ≤ 0x39)

/-- `inputRegex = ^\+?[a-zA-Z0-9].*$` on bytes (`.` does not match a newline, `$` only at the end) -/
def matchesInput (b : Bytes) : Bool :=
  let b := match b with | 0x2b :: r => r | r => r
  match b with
  | c :: rest => isAlnum c && !rest.contains 0x0a
  | [] => false

/-- `ctrlRegex = ^[><_^.]$` -/
def matchesCtrl (b : Bytes) : Bool :=
  match b with
  | [c] => c = 0x3e || c = 0x3c || c = 0x5f || c = 0x5e || c = 0x2e
  | _ => false

/-- `symRegex = ^[a-zA-Z0-9][a-zA-Z0-9_]+$` -/
def matchesSym (b : Bytes) : Bool :=
  match b with
  | c :: rest => isAlnum c && !rest.isEmpty && rest.all (fun x => isAlnum x || x = 0x5f)
  | [] => false

/-- `"_catch"` (explicit bytes, checked against the string by `#guard`) -/
def catchSym : Bytes := [95, 99, 97, 116, 99, 104]
#guard catchSym = ascii "_catch"

/-- `valid(target)` -/
def validTarget (t : Bytes) : Bool :=
  !t.isEmpty && ((t = catchSym || matchesSym t) || matchesCtrl t)

/-- `Rewind`: its own errors never reach the caller (the inner `err` shadows the returned one). -/
def rewind : Nat → Bytes → VM Bytes
  | 0, sym => pure sym
  | fuel + 1, sym => do
    let s ← get
    match s.st.top with
    | .ok true => pure sym
    | _ =>
      match s.st.up with
      | .ok (sym', st') =>
        let (ca', r) := s.ca.pop
        modify fun s => { s with st := st', ca := ca' }
        match r with
        | .ok () => rewind fuel sym'
        | _ => pure sym'
      | _ => pure sym

/-- `applyTarget`: returns the landing symbol and index. -/
def applyTarget (target : Bytes) : VM (Bytes × Nat) := do
  let s ← get
  let (sym, idx) := s.st.where
  if !validTarget target then fail "invalid-target" (ascii "invalid input: " ++ target) else
  if target = [0x5f] then do            -- "_"
    let (sym', st') ← lift s.st.up (fun _ => ascii "exit called beyond top frame")
    modify fun s => { s with st := st' }
    let s ← get
    let (ca', r) := s.ca.pop
    modify fun s => { s with ca := ca' }
    let _ ← lift r (fun _ => ascii "already at top level")
    pure (sym', idx)
  else if target = [0x3e] then do       -- ">"
    let (idx', st') ← lift s.st.next (fun _ => ascii "state root node not yet defined")
    modify fun s => { s with st := st' }
    pure (sym, idx')
  else if target = [0x3c] then do       -- "<"
    let (idx', st') ← lift s.st.previous
      (fun k => if k = "index" then ascii "already at first index" else ascii "state root node not yet defined")
    modify fun s => { s with st := st' }
    pure (sym, idx')
  else if target = [0x5e] then do       -- "^"
    let sym' ← rewind (s.st.execPath.length + 1) sym
    pure (sym', idx)
  else if target = [0x2e] then do       -- "."
    modify fun s => { s with st := s.st.same }
    let s ← get
    pure s.st.where
  else do
    let st' ← lift (s.st.down target)
    modify fun s => { s with st := st', ca := s.ca.push }
    pure (target, 0)

/-! ### vm/runner.go -/

/-- `Vm.Reset()` -/
def vmReset : VM Unit :=
  modify fun s =>
    let pg := s.pg.reset
    { s with pg := { pg with menu := { (Menu.new s.sep) with hasRs := true } } }

/-- what `Vm.Run` does to the renderer when execution resumes after a HALT: `vm.Reset()` (a new menu with the
configured separator, page reset) and `pg.WithError(nil)` -/
def resumeReset (s : VmSt) : VmSt :=
  let pg := s.pg.reset
  { s with pg := { pg with err := none, menu := { (Menu.new s.sep) with hasRs := true } }, errOpaque := false }

def moveCatchCode : Bytes := newLine Facts.opMOVE [catchSym] none none

/-- `rs.GetCode(ctx, sym)`; the harness resource's message is `nocode <sym>` -/
def getCodeM (env : Env) (lang : Option Bytes) (sym : Bytes) : VM Bytes := do
  logLookup "code" sym lang
  match env.code lang sym with
  | some c => pure c
  | none => fail "code-lookup" (ascii "nocode " ++ sym)

/-- the renderer's view of the resource in a given language, logging nothing (the lookups made by
a render are logged by `renderM`). -/
def renderEnv (env : Env) (lang : Option Bytes) : RenderEnv :=
  { tpl := env.tpl lang, label := env.label lang }

/-- Go's message for a failed `pg.Map(sym)` -/
def mapErrMsg (k : String) (sym cur : Bytes) : Bytes :=
  if k = "map-get" then ascii "key '" ++ sym ++ ascii "' not found in any frame"
  else if k = "map-size" then ascii "unknown symbol: " ++ sym
  else ascii "sink already set to symbol '" ++ cur ++ ascii "'"

/-- `pg.Map(sym)` with Go's messages -/
def pageMapM (sym : Bytes) : VM Unit := do
  let s ← get
  match s.pg.map s.ca sym with
  | .ok pg => modify fun s => { s with pg := pg }
  | .err k => fail k (mapErrMsg k sym (s.pg.sink.getD []))
  | .panic p => vpanic p

/-- the two loops of `refresh` over `FlagReset` / `FlagSet`: a requested flag is applied only when
`IsWriteableFlag` allows it -/
def applyFlagList (setTo : Bool) : List Nat → VM Unit
  | [] => pure ()
  | f :: fs => do
    let _ ← (if isWriteableFlag f then (if setTo then setFlagM f else resetFlagM f) else pure false)
    applyFlagList setTo fs

/-- what `refresh` does with the handler's result: LOADFAIL on failure, otherwise the writeable
flag requests, then the LANG handling -/
def refreshTail (env : Env) (key : Bytes) (r : ExtResult) : VM Bytes := do
  if r.fail then do
    let _ ← setFlagM Facts.loadfailFlag
    fail "external" (ascii "error " ++ key ++ ascii ":" ++ ascii (toString r.status))
  else do
    applyFlagList false r.flagReset
    applyFlagList true r.flagSet
    let haveLang ← matchFlagM Facts.langFlag true
    modify fun s => if haveLang then { s with st := s.st.setLanguageSt env.langOf r.content } else s
    pure r.content

/-- `refresh(key)`: look the function up, call it, apply the writeable flags, handle LANG. -/
def refresh (env : Env) (lang : Option Bytes) (key : Bytes) : VM Bytes := do
  let s ← get
  logLookup "func" key lang
  let input := s.st.input
  match env.ext s.ghost.ncalls key input lang with
  | none => fail "func-lookup" (ascii "nofunc " ++ key)
  | some r => do
    modify fun s => { s with ghost := { s.ghost with calls := s.ghost.calls ++ [(key, input, lang)],
                                                     ncalls := s.ghost.ncalls + 1 } }
    refreshTail env key r

/-- `runErrCheck` -/
def runErrCheck (kind : String) (msg : Bytes) (opq : Bool) : VM Bytes := do
  modify fun s => { s with pg := { s.pg with err := some msg }, errOpaque := opq }
  let v ← matchFlagM Facts.loadfailFlag true
  if !v then fail kind msg else pure moveCatchCode

/-- `runDeadCheck` (only called with no code left) -/
def runDeadCheck : VM Bytes := do
  let r ← matchFlagM Facts.readinFlag false
  if r then do
    let _ ← setFlagM Facts.terminateFlag
    pure []
  else do
    let t ← matchFlagM Facts.terminateFlag true
    if t then pure [] else do
    let s ← get
    let (loc, _) := s.st.where
    if loc.isEmpty then fail "dead-runner" (ascii "dead runner with no current location")
    else if loc = catchSym then fail "catch-loop" (ascii "unexpected catch endless loop detected")
    else do
      let input := match s.st.input with | some i => i | none => ascii "(no input)"
      modify fun s => { s with pg := { s.pg with err := some (ascii "invalid input: '" ++ input ++ ascii "'") },
                               errOpaque := false }
      pure moveCatchCode

def decodeErr {α} (r : Res α) : VM α := lift r (fun _ => ascii "decode")

def runMap (b : Bytes) : VM Bytes := do
  -- Go ignores the parse error here and maps the (then empty) symbol
  let (sym, b') := match parseSym b with
    | .ok (s, r) => (s, r)
    | _ => ([], [])
  pageMapM sym
  pure b'

def runCatch (env : Env) (lang : Option Bytes) (b : Bytes) : VM Bytes := do
  let (sym, sig, mode, b) ← decodeErr (parseSymSig b)
  let r ← matchFlagM sig mode
  if r then do
    logMove "CATCH" sym
    let (actual, _) ← applyTarget sym
    vmReset      -- (fix: commit) a CATCH move clears mappings and menu like every other move
    getCodeM env lang actual
  else pure b

def runCroak (b : Bytes) : VM Bytes := do
  let (sig, mode, b) ← decodeErr (parseSig b)
  let r ← matchFlagM sig mode
  if r then do
    vmReset
    modify fun s => { s with ca := s.ca.reset }
    pure []
  else pure b

def runLoad (env : Env) (lang : Option Bytes) (b : Bytes) : VM Bytes := do
  let (sym, sz, b) ← decodeErr (parseSymLen b)
  let s ← get
  match s.ca.get sym with
  | .ok _ => pure b
  | _ => do
    let r ← refresh env lang sym
    let s ← get
    let limit := sz % 65536
    let (ca', res) := s.ca.add sym r limit
    modify fun s => { s with ca := ca' }
    match res with
    | .ok () => pure b
    | .err "dup" => pure b
    | .err "limit" =>
      fail "limit" (ascii s!"value length {r.length} exceeds value size limit {limit}")
    | .err "capacity" =>
      fail "capacity" (ascii s!"Cache capacity exceeded {s.ca.useSize} of {s.ca.cacheSize}")
    | .err k => fail k (ascii k)
    | .panic p => vpanic p

def runReload (env : Env) (lang : Option Bytes) (b : Bytes) : VM Bytes := do
  let (sym, b) ← decodeErr (parseSym b)
  let r ← refresh env lang sym
  modify fun s => { s with ca := (s.ca.update sym r).1 }      -- the error of Update is ignored
  pageMapM sym
  pure b

def runMove (env : Env) (lang : Option Bytes) (b : Bytes) : VM Bytes := do
  let (sym, b) ← decodeErr (parseSym b)
  logMove "MOVE" sym
  let (sym', _) ← applyTarget sym
  let code ← getCodeM env lang sym'
  vmReset
  pure (b ++ code)

/-- the move an INCMP performs once its selector has matched: mark the match, apply the target,
fetch the target's code. A `<` on the first page (`IndexError`) counts as no match. -/
def incmpMove (env : Env) (lang : Option Bytes) (sym rest : Bytes) : VM Bytes := do
  let _ ← setFlagM Facts.inmatchFlag
  let _ ← resetFlagM Facts.readinFlag
  logMove "INCMP" sym
  let r ← attempt (applyTarget sym)
  match r with
  | .err "index" _ => do
    let _ ← setFlagM Facts.readinFlag
    pure rest
  | .err k m => fail k m
  | .panic p => vpanic p
  | .ok (sym', _) => do
    vmReset
    let code ← getCodeM env lang sym'
    pure (rest ++ code)

def runInCmp (env : Env) (lang : Option Bytes) (b : Bytes) : VM Bytes := do
  let (sym, sel, b) ← decodeErr (parseTwoSym b)
  let reading ← getFlagM Facts.readinFlag
  let have_ ← getFlagM Facts.inmatchFlag
  if have_ && reading then pure b else do
  let _ ← (if !have_ then setFlagM Facts.readinFlag else pure false)
  let s ← get
  match s.st.input with
  | none => fail "no-input" (ascii "no input has been set")
  | some input => do
    let wildcard := !have_ && sel = [0x2a]
    if !wildcard && sel ≠ input then pure b else incmpMove env lang sym b

def runHalt (b : Bytes) : VM Bytes := do
  let _ ← setFlagM Facts.waitFlag
  pure b

def runMSink (b : Bytes) : VM Bytes := do
  modify fun s => { s with pg := { s.pg with menu := { s.pg.menu with sink := true }.withPages } }
  pure b

def runMOut (b : Bytes) : VM Bytes := do
  let (title, choice, b) ← decodeErr (parseTwoSym b)
  modify fun s => { s with pg := { s.pg with menu := s.pg.menu.put choice title } }
  pure b

def runMNext (b : Bytes) : VM Bytes := do
  let (display, sel, b) ← decodeErr (parseTwoSym b)
  modify fun s => { s with pg := { s.pg with menu := { s.pg.menu with
    browse := { s.pg.menu.browse with nextSelector := sel, nextTitle := display, nextAvailable := true } } } }
  pure b

def runMPrev (b : Bytes) : VM Bytes := do
  let (display, sel, b) ← decodeErr (parseTwoSym b)
  modify fun s => { s with pg := { s.pg with menu := { s.pg.menu with
    browse := { s.pg.menu.browse with prevSelector := sel, prevTitle := display, prevAvailable := true } } } }
  pure b

/-- messages whose exact text the model does not reproduce -/
def opaqueKind (k : String) : Bool := k = "decode" || k = "short-opcode" || k = "invalid-opcode"

/-- what `Run` does with the outcome of one instruction: `runErrCheck`, then `runDeadCheck` when no
code is left -/
def settle (r : VRes Bytes) : VM Bytes := do
  let b ← (match r with
    | .ok x => pure x
    | .panic p => vpanic p
    | .err k m => runErrCheck k m (opaqueKind k))
  if b.isEmpty then runDeadCheck else pure b

/-- `Vm.Run`: structurally recursive on fuel. `lang` is the language on the Go context. -/
def runLoop (env : Env) : Nat → Option Bytes → Bytes → VM Bytes
  | 0, _, _ => fail "fuel" (ascii "fuel")
  | fuel + 1, lang, b => do
    let t ← matchFlagM Facts.terminateFlag true
    if t then pure [] else do
    let change ← resetFlagM Facts.langFlag
    let s ← get
    let lang := if change then (match s.st.language with | some l => some l | none => lang) else lang
    let waitChange ← resetFlagM Facts.waitFlag
    let _ ← (if waitChange then resetFlagM Facts.inmatchFlag else pure false)
    -- vm.Reset(); pg.WithError(nil) (fix: commits 0861976, 946bec9: the whole renderer, menu included, is re-created)
    modify fun s => if waitChange then resumeReset s else s
    let _ ← setFlagM Facts.dirtyFlag
    match opSplit b with
    | .err k => fail k (ascii "decode")
    | .panic p => vpanic p
    | .ok (op, b') => do
      if op = Facts.opHALT then runHalt b' else do
      let r ← attempt (
        if op = Facts.opCATCH then runCatch env lang b'
        else if op = Facts.opCROAK then runCroak b'
        else if op = Facts.opLOAD then runLoad env lang b'
        else if op = Facts.opRELOAD then runReload env lang b'
        else if op = Facts.opMAP then runMap b'
        else if op = Facts.opMOVE then runMove env lang b'
        else if op = Facts.opINCMP then runInCmp env lang b'
        else if op = Facts.opMSINK then runMSink b'
        else if op = Facts.opMOUT then runMOut b'
        else if op = Facts.opMNEXT then runMNext b'
        else if op = Facts.opMPREV then runMPrev b'
        else fail "unhandled" (ascii s!"Unhandled state: {op}"))
      let b'' ← settle r
      if b''.isEmpty then pure [] else runLoop env fuel lang b''

/-- log the lookups a page render makes (template, then one label per rendered menu title) -/
def renderM (env : Env) (lang : Option Bytes) (sym : Bytes) (idx : Nat) : VM Bytes := do
  let s ← get
  logLookup "template" sym lang
  match s.pg.renderPage (renderEnv env lang) s.ca sym idx with
  | .ok (r, pg) => do
    modify fun s => { s with pg := pg }
    pure r
  | .err k => fail k (ascii k)
  | .panic p => vpanic p

/-- `Vm.Render` -/
def vmRender (env : Env) (fuel : Nat) (lang : Option Bytes) : VM Bytes := do
  let changed ← resetFlagM Facts.dirtyFlag
  if !changed then pure [] else do
  let s ← get
  let (sym, idx) := s.st.where
  if sym.isEmpty then pure [] else do
  let r ← attempt (renderM env lang sym idx)
  match r with
  | .err "browse" _ => do
    vmReset
    let _ ← attempt (runLoop env fuel lang moveCatchCode)
    let s ← get
    let (sym, idx) := s.st.where
    renderM env lang sym idx
  | .err k m => fail k m
  | .panic p => vpanic p
  | .ok x => pure x

end Vise
