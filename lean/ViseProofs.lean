-- Root of the proof library: helper lemmas and the per-property theorem files.
import Vise.Lemmas.Codec
import Vise.Props.C14
