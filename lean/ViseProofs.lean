-- Root of the proof library: helper lemmas and the per-property theorem files.
import Vise.Lemmas.Codec
import Vise.Lemmas.CodecSpec
import Vise.Lemmas.Cache
import Vise.Lemmas.CacheInv
import Vise.Props.C09
import Vise.Props.C14
import Vise.Props.C15
