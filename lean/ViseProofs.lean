-- Root of the proof library: helper lemmas and the per-property theorem files.
import Vise.Lemmas.Codec
import Vise.Lemmas.CodecSpec
import Vise.Lemmas.Cache
import Vise.Lemmas.CacheInv
import Vise.Props.C09
import Vise.Props.C14
import Vise.Props.C15
import Vise.Lemmas.VmMonad
import Vise.Props.C01
import Vise.Props.C04
import Vise.Props.C06
import Vise.Props.C17
import Vise.Lemmas.Flags
import Vise.Lemmas.Keeps
import Vise.Props.C03
