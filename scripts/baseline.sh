#!/bin/bash
# Runs the repository's pinned test suite (the BASELINE command, offline) and prints pass/fail counts.
# usage: baseline.sh [repo-dir] [extra go test flags...]
REPO=${1:-/repo}; shift
export GOFLAGS=-mod=mod GOPROXY=off GOSUMDB=off GOTOOLCHAIN=local
cd "$REPO" || exit 2
go test -mod=mod -json -vet=off -count=1 -timeout 25m "$@" ./... 2>/dev/null | python3 -c '
import sys,json
p=f=0; failed=[]
for l in sys.stdin:
    try: e=json.loads(l)
    except Exception: continue
    if e.get("Test") is None: continue
    if e.get("Action")=="pass": p+=1
    elif e.get("Action")=="fail": f+=1; failed.append(e["Package"]+"::"+e["Test"])
print("pass=%d fail=%d"%(p,f))
for t in failed: print("FAIL",t)
sys.exit(1 if f or p<256 else 0)
'
