#!/bin/bash
# Copies the changes a seeding sub-agent left in <srcroot>/<id>/{1,2,3}/ to /verif/seeded/<id>/<k+offset>/ and marks the wave.
# usage: collectseeds.sh <srcroot> <offset> <wave> <id> ...
cd /verif
src=$1; off=$2; wave=$3; shift 3
for id in "$@"; do
  for k in ${KS:-1 2 3}; do
    s=$src/$id/$k
    [ -f $s/patch.diff ] || { echo "$id/$k missing"; continue; }
    d=seeded/$id/$((k+off)); rm -rf $d; mkdir -p $d; cp -r $s/. $d/
    python3 - $d $wave <<'E'
import json, sys
p = sys.argv[1] + '/meta.json'
try:
    m = json.load(open(p))
except Exception as e:
    print('meta problem', p, e); m = {}
m['wave'] = int(sys.argv[2])
json.dump(m, open(p, 'w'), indent=1)
E
    git -C /repo apply --check $PWD/$d/patch.diff && echo "$id/$((k+off)) applies"
  done
done
