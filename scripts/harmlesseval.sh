#!/bin/bash
# Applies every behaviour-preserving rewrite under seeded/harmless/<k>/patch.diff to /repo in turn and runs EVERY
# property's quick check: none may report a violation. Results: seeded/RESULTS-harmless.tsv
# usage: [ONLY_K="10 11"] harmlesseval.sh
cd /verif
if [ -n "$(git -C /repo status --short)" ]; then echo "/repo working tree not clean"; exit 2; fi
for d in seeded/harmless/*/; do
  k=$(basename $d)
  if [ -n "$ONLY_K" ] && ! echo " $ONLY_K " | grep -q " $k "; then continue; fi
  if ! git -C /repo apply --check $PWD/$d/patch.diff 2>/dev/null; then echo -e "harmless\t$k\tPATCH-DOES-NOT-APPLY"; continue; fi
  git -C /repo apply $PWD/$d/patch.diff
  bad=""
  for id in C01 C02 C03 C04 C05 C06 C07 C08 C09 C10 C11 C12 C13 C14 C15 C16 C17 C18 C19 C20; do
    out=$(./check $id --tier quick 2>&1); rc=$?
    if [ $rc -ne 0 ]; then bad="$bad $id($(echo "$out" | grep '^VIOLATION' | head -1 | sed 's/.*replay=//'))"; fi
  done
  git -C /repo checkout -- . ; git -C /repo clean -fdq
  echo -e "harmless\t$k\t$(cat $d/what.txt | cut -c1-90)\talarms:${bad:- none}"
done
