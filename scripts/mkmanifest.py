#!/usr/bin/env python3
"""Regenerates MANIFEST.json from checklib/props.py (claimed checks) and checklib/manifest_meta.py."""
import json, os, sys
V = os.path.dirname(os.path.dirname(os.path.abspath(__file__)))
sys.path.insert(0, os.path.join(V, 'checklib'))
from props import PROPS
from manifest_meta import META, NOT_APPLICABLE, HOOK_COMMITS, NOTES
ids = [json.loads(l)['id'] for l in open(os.path.join(V, 'properties.jsonl'))]
checks = []
for pid in ids:
    if pid not in PROPS or pid not in META:
        continue
    m = META[pid]
    checks.append({
        'property_id': pid,
        'quick_cmd': './check %s --tier quick' % pid,
        'thorough_cmd': './check %s --tier thorough' % pid,
        'evidence_file': 'evidence/%s.json' % pid,
        'replay_cmd_template': './check %s --replay {path}' % pid,
        'engine': 'lean-proof+correspondence',
        'level_claimed': {'category': 'proof', 'text': m['text'], 'design_ref': m.get('design_ref', 'DESIGN.md section 8, ' + pid)},
        'level_note': m['note'],
        'technique': m.get('technique', 'Lean 4 theorems about a hand-written executable model; model tied to the Go code by a differential correspondence check plus regenerated constants'),
    })
na = [{'property_id': p, 'reason': r} for p, r in NOT_APPLICABLE.items() if p not in [c['property_id'] for c in checks]]
man = {
    'version': 1,
    'setup_cmd': './scripts/setup.sh',
    'hooks': {'guard': 'verif', 'enable': 'no hooks: everything is observed through the public API, exported fields, recover(), go:linkname from the harness module, strace and the race detector; checks build /repo as it is',
              'baseline_off_cmd': "cd /repo && GOFLAGS=-mod=mod go test -vet=off -count=1 -timeout 25m ./...",
              'source_commits': HOOK_COMMITS, 'add_only': True},
    'engines': [{'name': 'lean-proof+correspondence', 'path': 'check', 'serves_properties': [c['property_id'] for c in checks],
                 'kind_free_text': 'Lean 4 kernel-checked theorems over an executable model (lean/), Go differential harness (harness/), go/ast fact extractor'}],
    'checks': checks,
    'not_applicable': na,
    'notes': NOTES,
}
json.dump(man, open(os.path.join(V, 'MANIFEST.json'), 'w'), indent=1)
print('claimed:', [c['property_id'] for c in checks]); print('not claimed:', [x['property_id'] for x in na])
