#!/bin/bash
# Applies every seeded change under /verif/seeded/<id>/<k>/patch.diff to /repo in turn, runs the property's
# check (quick tier, or $TIER), restores /repo, and prints one line per change. Results go to seeded/RESULTS.tsv.
# usage: [ONLY="C01/1 C02/3"] [TIER=thorough] seedeval.sh [id ...]
cd /verif
TIER=${TIER:-quick}
ids="$@"; [ -z "$ids" ] && ids=$(ls seeded | grep '^C')
if [ -n "$(git -C /repo status --short)" ]; then echo "/repo working tree not clean"; exit 2; fi
for id in $ids; do
  for d in seeded/$id/*/; do
    k=$(basename $d)
    [ -f $d/patch.diff ] || continue
    if [ -n "$ONLY" ] && ! echo " $ONLY " | grep -q " $id/$k "; then continue; fi
    if ! git -C /repo apply --check $PWD/$d/patch.diff 2>/dev/null; then echo -e "$id\t$k\tPATCH-DOES-NOT-APPLY"; continue; fi
    git -C /repo apply $PWD/$d/patch.diff
    out=$(./check $id --tier $TIER 2>&1); rc=$?
    git -C /repo checkout -- . ; git -C /repo clean -fdq
    v=$(echo "$out" | grep -c '^VIOLATION')
    summ=$(echo "$out" | grep "^$id tier" | sed 's/.*obligations/obligations/')
    rep=$(echo "$out" | grep '^VIOLATION' | head -1 | sed 's/.*replay=//')
    echo -e "$id\t$k\trc=$rc\tviolations=$v\t$summ\t$rep"
  done
done
