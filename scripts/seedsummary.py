#!/usr/bin/env python3
"""Writes seeded/RESULTS-all-final.md from seeded/RESULTS-all-final.tsv and the seeds' meta.json: one line per seeded change."""
import json, os, sys
root = '/verif/seeded'
rows = []
for l in open(os.path.join(root, 'RESULTS-all-final.tsv')):
    f = l.rstrip('\n').split('\t')
    if len(f) < 3:
        continue
    pid, k = f[0], f[1]
    if 'PATCH' in f[2]:
        out = 'patch does not apply'
    elif f[2] == 'rc=0':
        out = 'NOT reported'
    elif f[-1].endswith('no-failing-input-found'):
        out = 'reported, no-failing-input-found'
    else:
        out = 'reported with a failing input'
    title, wave = '', ''
    try:
        m = json.load(open(os.path.join(root, pid, k, 'meta.json')))
        title = (m.get('title') or m.get('summary') or m.get('mechanism') or '')
        wave = str(m.get('wave', 1))
    except Exception:
        pass
    rows.append((pid, int(k) if k.isdigit() else 99, wave, title.replace('|', '/').replace('\n', ' ')[:160], out))
rows.sort()
with open(os.path.join(root, 'RESULTS-all-final.md'), 'w') as w:
    w.write('| seed | wave | change | quick check |\n|---|---|---|---|\n')
    for pid, k, wave, title, out in rows:
        w.write('| %s/%d | %s | %s | %s |\n' % (pid, k, wave, title, out))
    from collections import Counter
    c = Counter(r[4] for r in rows)
    w.write('\n' + ', '.join('%s: %d' % kv for kv in sorted(c.items())) + '\n')
print(len(rows), 'rows')
