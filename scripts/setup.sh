#!/bin/bash
# One-time setup after a fresh restore (offline): build the Go harness, regenerate Facts.lean from /repo,
# build the Lean model, all proofs and the model driver.
set -e
cd "$(dirname "$0")/.."
export GOFLAGS=-mod=mod GOPROXY=off GOSUMDB=off GOTOOLCHAIN=local
mkdir -p .cache/bin lean/Vise/Gen
cp /repo/go.sum harness/go.sum
(cd harness && go build -o ../.cache/bin ./cmd/...)
.cache/bin/extract /repo > lean/Vise/Gen/Facts.lean
mkdir -p lean/Vise/Gen/Fn
.cache/bin/gotrans /repo lean/Vise/Gen/Fn
(cd lean && lake build Vise ViseProofs visemodel)
echo setup done
