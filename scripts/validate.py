#!/usr/bin/env python3-vt
import json, jsonschema, glob, sys
ok = True
try:
    jsonschema.validate(json.load(open('/verif/MANIFEST.json')), json.load(open('/root/.vp/MANIFEST.schema.json')))
    print('MANIFEST valid')
except Exception as e:
    ok = False; print('MANIFEST INVALID', str(e)[:300])
sch = json.load(open('/root/.vp/EVIDENCE.schema.json'))
for f in sorted(glob.glob('/verif/evidence/*.json')):
    try:
        jsonschema.validate(json.load(open(f)), sch)
    except Exception as e:
        ok = False; print(f, 'INVALID', str(e)[:300])
print('evidence files checked:', len(glob.glob('/verif/evidence/*.json')))
sys.exit(0 if ok else 1)
